/-
  SyModel.Transfer.BlockCompare — byte-level model of the local transfer paths that the entry-level
  engine model (`SyModel.Engine.Model`) abstracts as "content id":

  * `LocalTransport::copy_file`            src/transport/local.rs:235-342
  * `LocalTransport::sync_file_with_delta` src/transport/local.rs:344-892
      existence test :349, size gates :365-391 (hook `SY_VERIF_DELTA_THRESHOLD` :369-376),
      block size :408-414 (hook `SY_VERIF_BLOCK_SIZE`), sparse gate :419-454, change-ratio gate
      :456-515, strategy choice :518-526 (hook `SY_VERIF_FORCE_COW`), COW loop :562-703,
      in-place loop :704-839, mtime on the temp file :854-865, rename :868, result :884-888
  * `estimate_change_ratio`                src/delta/ratio.rs:78-192

  A file is its content `Bytes`; `seek + write_all` and `set_len` are `writeAt` / `setLen` of
  `SyModel.Compress.Sparse` (validated against real files by the streams c14 and c01bytes).
  Everything here is executable and is what `sydriver` runs for the `xfer.*` requests.

  How the two readers are modelled.  Both loops read source and destination through
  `BufReader::with_capacity(256 * 1024, File)` with `read(&mut buf)` where `buf.len() = block_size`.
  `BufReader::read` (std) bypasses its buffer when the buffer is empty and `buf.len() >= capacity`;
  otherwise it refills the *empty* buffer with one `read` of `capacity` bytes (a regular file returns
  `min(capacity, remaining)`) and hands out `min(buf.len(), buffered)` bytes.  A reader that started
  at position 0 therefore refills exactly at the multiples of `capacity`, and the number of bytes a
  `read` returns at file position `pos` is `min (chunkAt cap bs pos) (len - pos)` with `chunkAt`
  below.  For the production block size (64 KiB, a divisor of 256 KiB) and for every block size that
  divides or exceeds the capacity this is `min bs (len - pos)`; for other block sizes (reachable only
  through the hook) a short chunk appears in front of every multiple of 256 KiB.
-/
import SyModel.Compress.Sparse
namespace SyModel.Transfer
open SyModel SyModel.Compress

/-! ### constants (tied to the source by `consts_ok_*` in `SyModel.Props.C01Bytes`) -/

/-- `BufReader::with_capacity(256 * 1024, …)`: local.rs:586,593,727,734; ratio.rs:89-90. -/
abbrev BUF_CAP : Nat := 262144
/-- `const DELTA_THRESHOLD: u64 = 10 * 1024 * 1024` (local.rs:365). -/
abbrev DELTA_THRESHOLD : Nat := 10485760
/-- `if dest_size < 4096` (local.rs:388). -/
abbrev SMALL_DEST : Nat := 4096
/-- `let block_size = 64 * 1024` (local.rs:408). -/
abbrev LOCAL_BLOCK_SIZE : Nat := 65536
/-- `Some(20), // Sample 20 blocks` (local.rs:462). -/
abbrev SAMPLE_COUNT : Nat := 20
/-- `Some(0.75), // 75% threshold` (local.rs:463) as the exact rational 3/4. -/
abbrev RATIO_NUM : Nat := 3
abbrev RATIO_DEN : Nat := 4
/-- `if size_diff_ratio > 0.5` (ratio.rs:110) as the exact rational 1/2. -/
abbrev SIZE_DIFF_NUM : Nat := 1
abbrev SIZE_DIFF_DEN : Nat := 2

/-! ### reads through a `BufReader` -/

/-- upper bound of the number of bytes `BufReader::read(&mut [0; bs])` hands out at file position
    `pos` (reader of capacity `cap`, started at 0, only ever read with this `bs`). -/
def chunkAt (cap bs pos : Nat) : Nat :=
  if bs < cap then min bs (cap - pos % cap) else bs

/-! ### the two block loops -/

/-- one iteration of a block loop, as seen by the comparison: `offset`, `source_buf[..src_read]`,
    `dest_buf[..dst_read]`. -/
structure Blk where
  off : Nat
  s : Bytes
  d : Bytes
deriving Repr, DecidableEq

/-- `!blocks_match` with `blocks_match = src_read == dst_read && source_buf[..src_read] == dest_buf[..dst_read]`
    (local.rs:635-636, 777-778). -/
def Blk.differs (b : Blk) : Bool := !(b.s.length == b.d.length && b.s == b.d)

/-- mutable state of a block loop. `offset` and `bytes_written` are one field: the code increments
    both by `src_read` in the same statement pair (local.rs:686-687, 827-828). `writes` is a log of
    the `seek(offset)` + `write_all(data)` pairs issued on the temp file, newest first. -/
structure Loop where
  temp : Bytes
  offset : Nat
  changed : Nat
  literal : Nat
  writes : List (Nat × Bytes)
deriving Repr, DecidableEq

/-- In-place strategy loop (local.rs:760-829). `k` is the chunk bound of the two readers
    (`chunkAt BUF_CAP block_size`); `srest`/`drest` are the unread parts of source and destination,
    `dpos` the position of the destination reader (it differs from `offset` once a read came back
    short). Every source block is written at its offset; a block counts as changed when the read
    sizes or the bytes differ. -/
def inPlaceGo (k : Nat → Nat) (srest drest : Bytes) (dpos : Nat) (st : Loop) : Loop :=
  let sb := srest.take (k st.offset)                       -- source_file.read(&mut source_buf)
  if _h : sb = [] then st                                  -- src_read == 0 → break
  else
    let db := drest.take (k dpos)                          -- dest_file.read(&mut dest_buf)
    let blocksMatch := sb.length == db.length && sb == db
    inPlaceGo k (srest.drop sb.length) (drest.drop db.length) (dpos + db.length)
      { temp := writeAt st.temp st.offset sb               -- always seek and write
        offset := st.offset + sb.length
        changed := if blocksMatch then st.changed else st.changed + 1
        literal := if blocksMatch then st.literal else st.literal + sb.length
        writes := (st.offset, sb) :: st.writes }
termination_by srest.length
decreasing_by
  have h1 : 0 < (srest.take (k st.offset)).length := List.length_pos_iff.mpr _h
  have h2 : (srest.take (k st.offset)).length ≤ srest.length := by simp [List.length_take]; omega
  simp only [List.length_drop]; omega

/-- COW strategy loop (local.rs:618-688): only non-matching source blocks are written. -/
def cowGo (k : Nat → Nat) (srest drest : Bytes) (dpos : Nat) (st : Loop) : Loop :=
  let sb := srest.take (k st.offset)
  if _h : sb = [] then st
  else
    let db := drest.take (k dpos)
    let blocksMatch := sb.length == db.length && sb == db
    cowGo k (srest.drop sb.length) (drest.drop db.length) (dpos + db.length)
      (if blocksMatch then { st with offset := st.offset + sb.length }
       else
        { temp := writeAt st.temp st.offset sb
          offset := st.offset + sb.length
          changed := st.changed + 1
          literal := st.literal + sb.length
          writes := (st.offset, sb) :: st.writes })
termination_by srest.length
decreasing_by
  have h1 : 0 < (srest.take (k st.offset)).length := List.length_pos_iff.mpr _h
  have h2 : (srest.take (k st.offset)).length ≤ srest.length := by simp [List.length_take]; omega
  simp only [List.length_drop]; omega

/-- In-place strategy with an arbitrary chunk bound: `File::create(temp)`, `set_len(source_size)`
    (local.rs:709-724), the loop; the temp file is then renamed over the destination. -/
def rebuildInPlaceK (k : Nat → Nat) (src dst : Bytes) : Loop :=
  inPlaceGo k src dst 0
    { temp := setLen [] src.length, offset := 0, changed := 0, literal := 0, writes := [] }

/-- COW strategy with an arbitrary chunk bound: `fs::copy(dest, temp)` (local.rs:564), the loop,
    `temp_file.set_len(bytes_written)` (local.rs:691). -/
def rebuildCowK (k : Nat → Nat) (src dst : Bytes) : Loop :=
  let r := cowGo k src dst 0 { temp := dst, offset := 0, changed := 0, literal := 0, writes := [] }
  { r with temp := setLen r.temp r.offset }

def rebuildInPlaceLoop (bs : Nat) (src dst : Bytes) : Loop := rebuildInPlaceK (chunkAt BUF_CAP bs) src dst
def rebuildCowLoop (bs : Nat) (src dst : Bytes) : Loop := rebuildCowK (chunkAt BUF_CAP bs) src dst

/-- the in-place strategy: `(bytes of the renamed temp file, changed_blocks, literal_bytes)`. -/
def rebuildInPlace (bs : Nat) (src dst : Bytes) : Bytes × Nat × Nat :=
  let r := rebuildInPlaceLoop bs src dst
  (r.temp, r.changed, r.literal)

/-- the COW strategy: `(bytes of the renamed temp file, changed_blocks, literal_bytes)`. -/
def rebuildCow (bs : Nat) (src dst : Bytes) : Bytes × Nat × Nat :=
  let r := rebuildCowLoop bs src dst
  (r.temp, r.changed, r.literal)

/-! ### the comparison the loops perform, position by position (specification view)

`cmpBlocks k src dst` lists the iterations with a *single* position: block `b` starts at `b.off`,
`b.s` and `b.d` are what source and destination hold there (at most `k b.off` bytes each).
`SyModel.Lemmas.TransferBlocks` proves that both loops are folds over this list. -/

def cmpBlocksGo (k : Nat → Nat) (off : Nat) (srest drest : Bytes) : List Blk :=
  let sb := srest.take (k off)
  if _h : sb = [] then []
  else
    { off := off, s := sb, d := drest.take (k off) } ::
      cmpBlocksGo k (off + sb.length) (srest.drop sb.length) (drest.drop sb.length)
termination_by srest.length
decreasing_by
  have h1 : 0 < (srest.take (k off)).length := List.length_pos_iff.mpr _h
  have h2 : (srest.take (k off)).length ≤ srest.length := by simp [List.length_take]; omega
  simp only [List.length_drop]; omega

def cmpBlocks (k : Nat → Nat) (src dst : Bytes) : List Blk := cmpBlocksGo k 0 src dst

/-- fixed-size view: block `i` is `[i·bs, (i+1)·bs)` cut at the end of each file. -/
def plainBlocks (bs : Nat) (src dst : Bytes) : List Blk :=
  (List.range ((src.length + bs - 1) / bs)).map fun i =>
    { off := i * bs, s := (src.drop (i * bs)).take bs, d := (dst.drop (i * bs)).take bs }

/-! ### `estimate_change_ratio` (src/delta/ratio.rs:78-192) -/

/-- `ChangeRatioResult`; `change_ratio` is the exact rational `num / den` (`den > 0`). -/
structure RatioResult where
  num : Nat
  den : Nat
  sampled : Nat
  changed : Nat
  useDelta : Bool
deriving Repr, DecidableEq

/-- `ChangeRatioResult::new`: `use_delta = change_ratio <= threshold` (ratio.rs:37), threshold 3/4. -/
def RatioResult.mk' (num den sampled changed : Nat) : RatioResult :=
  { num := num, den := den, sampled := sampled, changed := changed,
    useDelta := decide (num * RATIO_DEN ≤ RATIO_NUM * den) }

/-- ratio.rs:123-138: `step = total_blocks / (sample_count - 1)` (0 for a single sample),
    `block_idx = (i * step).min(total_blocks.saturating_sub(1))`. -/
def samplePositions (totalBlocks sampleCount : Nat) : List Nat :=
  let step := if sampleCount > 1 then totalBlocks / (sampleCount - 1) else 0
  (List.range sampleCount).map fun i =>
    if sampleCount > 1 then min (i * step) (totalBlocks - 1) else 0

/-- ratio.rs:145-168 for one sampled block: both readers `seek(Start(idx * block_size))` (which
    empties the `BufReader`) and read once — `min(bs, remaining)` bytes; the block counts as changed
    when the read sizes differ or the xxh3 hashes differ (`hash`, a parameter). -/
def sampleChanged [BEq H] (hash : Bytes → H) (bs : Nat) (src dst : Bytes) (idx : Nat) : Bool :=
  let sb := (src.drop (idx * bs)).take bs
  let db := (dst.drop (idx * bs)).take bs
  if sb.length != db.length then true else hash sb != hash db

/-- `(source_size as f64 - dest_size as f64).abs()` on sizes (exact below 2^53). -/
def absDiff (a b : Nat) : Nat := if a ≥ b then a - b else b - a

def changeRatioH [BEq H] (hash : Bytes → H) (bs : Nat) (src dst : Bytes) : RatioResult :=
  let s := src.length
  let d := dst.length
  let totalBlocks := (d + bs - 1) / bs                    -- (dest_size as usize).div_ceil(block_size)
  let sampleCount := min SAMPLE_COUNT totalBlocks
  let diff := absDiff s d                                 -- |source_size - dest_size|
  -- size_diff_ratio = diff / d (1.0 when d = 0); `> 0.5` ⇒ result without sampling, ratio capped at 1.0
  if d = 0 then RatioResult.mk' 1 1 0 0
  else if SIZE_DIFF_DEN * diff > SIZE_DIFF_NUM * d then
    (if diff ≥ d then RatioResult.mk' 1 1 0 0 else RatioResult.mk' diff d 0 0)
  else
    let changed := ((samplePositions totalBlocks sampleCount).filter (sampleChanged hash bs src dst)).length
    if sampleCount > 0 then RatioResult.mk' changed sampleCount sampleCount changed
    else RatioResult.mk' 0 1 sampleCount changed

/-- the sampling with an injective hash (xxh3 collision-freeness on the sampled blocks is assumed). -/
def changeRatio (bs : Nat) (src dst : Bytes) : RatioResult := changeRatioH (fun b => b) bs src dst

/-! ### full copies -/

/-- a regular file: content and mtime (nanoseconds). -/
structure FileSt where
  bytes : Bytes
  mtime : Nat
deriving Repr, DecidableEq

/-- `fs::copy(source, dest)`: `open(dest, O_TRUNC)`, then the source bytes (copy_file_range /
    sendfile / read+write — content-exact by assumption); the destination's mtime is the time of
    the write. Returns the file and the byte count `fs::copy` reports. -/
def fsCopy (src : Bytes) (now : Nat) : FileSt × Nat :=
  ({ bytes := writeAt (setLen [] 0) 0 src, mtime := now }, src.length)

/-- `filetime::set_file_mtime(path, t)`. -/
def setMtime (f : FileSt) (t : Nat) : FileSt := { f with mtime := t }

/-- `copy_sparse_file` (local.rs:36-46): the seek copier on the regions the kernel reports, or the
    zero-detecting block copier when `lseek(SEEK_DATA)` answers EINVAL (`none`). -/
def copySparseFile (src : Bytes) (seekData : Option (List Region)) (now : Nat) : FileSt × Nat :=
  match seekData with
  | some rs => ({ bytes := localSeek src rs, mtime := now }, src.length)
  | none => ({ bytes := localBlocks src, mtime := now }, src.length)

/-! ### routing of `sync_file_with_delta` -/

inductive Route where
  /-- destination absent (local.rs:349-352) → `copy_file` -/
  | absent
  /-- `dest_size < DELTA_THRESHOLD` (local.rs:378-385) → `copy_file` -/
  | belowThreshold
  /-- `dest_size < 4096` (local.rs:388-391) → `copy_file`; dead: see `small_gate_dead` -/
  | smallDest
  /-- sparse source (local.rs:424-454) → `copy_sparse_file` -/
  | sparse
  /-- `!ratio.use_delta` (local.rs:475-502) → `fs::copy` -/
  | ratioFull
  /-- clone + selective writes (local.rs:562-703) -/
  | deltaCow
  /-- full rebuild in a fresh temp file (local.rs:704-839) -/
  | deltaInPlace
deriving Repr, DecidableEq

def Route.tag : Route → String
  | .absent => "absent"
  | .belowThreshold => "below-threshold"
  | .smallDest => "small-dest"
  | .sparse => "sparse"
  | .ratioFull => "ratio-full"
  | .deltaCow => "delta-cow"
  | .deltaInPlace => "delta-inplace"

structure Cfg where
  /-- `SY_VERIF_DELTA_THRESHOLD` (only under `cfg(nijaru_sy_verif)`); `none` = unset / production -/
  hookThreshold : Option Nat := none
  /-- 64 KiB, or `SY_VERIF_BLOCK_SIZE` -/
  blockSize : Nat := LOCAL_BLOCK_SIZE
  /-- `is_file_sparse(&source_meta)` — allocation is not part of the byte model -/
  srcSparse : Bool := false
  /-- the kernel's SEEK_DATA/SEEK_HOLE answer for the source (`none` = EINVAL) -/
  seekData : Option (List Region) := some []
  /-- `estimate_change_ratio` returned `Err` ("Proceeding with delta sync anyway", local.rs:509-514) -/
  ratioFails : Bool := false
  /-- `supports_cow && same_fs && !has_hardlinks`, or `SY_VERIF_FORCE_COW && !has_hardlinks` -/
  useCow : Bool := false
deriving Repr

/-- the shadowed `dest_size` of the hook (local.rs:369-376): a destination of at least the hook
    threshold is lifted to `DELTA_THRESHOLD`, so that it passes *both* size gates. -/
def effDestSize (cfg : Cfg) (d : Nat) : Nat :=
  match cfg.hookThreshold with
  | some t => if d ≥ t then max d DELTA_THRESHOLD else d
  | none => d

def routeOf (cfg : Cfg) (src : Bytes) (dst : Option Bytes) : Route :=
  match dst with
  | none => .absent
  | some d =>
    let ds := effDestSize cfg d.length
    if ds < DELTA_THRESHOLD then .belowThreshold
    else if ds < SMALL_DEST then .smallDest
    else if cfg.srcSparse then .sparse
    else if !cfg.ratioFails && !(changeRatio cfg.blockSize src d).useDelta then .ratioFull
    else if cfg.useCow then .deltaCow
    else .deltaInPlace

/-- `TransferResult` (transport/mod.rs:24-35) and the destination file after the call. -/
structure Outcome where
  route : Route
  file : FileSt
  bytesWritten : Nat
  deltaOps : Option Nat
  literalBytes : Option Nat
deriving Repr, DecidableEq

/-- `TransferResult::used_delta`. -/
def Outcome.usedDelta (o : Outcome) : Bool := o.deltaOps.isSome

/-- `copy_file` (local.rs:235-342): sparse or not, `fs::copy` then `set_file_mtime(dest, source mtime)`;
    `TransferResult::new(bytes_written)`. -/
def copyFile (route : Route) (src : FileSt) (now : Nat) : Outcome :=
  let (f, n) := fsCopy src.bytes now
  { route := route, file := setMtime f src.mtime, bytesWritten := n, deltaOps := none, literalBytes := none }

/-- what each route does to the destination. (`dst = none` on a route that reads the destination
    stands for an empty file; `routeOf` never produces that combination.) -/
def perform (cfg : Cfg) (route : Route) (src : FileSt) (dst : Option FileSt) (now : Nat) : Outcome :=
  match route with
  | .absent | .belowThreshold | .smallDest => copyFile route src now
  | .sparse =>
    let (f, n) := copySparseFile src.bytes cfg.seekData now
    { route := route, file := setMtime f src.mtime, bytesWritten := n, deltaOps := none, literalBytes := none }
  | .ratioFull =>
    let (f, n) := fsCopy src.bytes now
    { route := route, file := setMtime f src.mtime, bytesWritten := n, deltaOps := none, literalBytes := none }
  | .deltaCow =>
    let r := rebuildCowLoop cfg.blockSize src.bytes ((dst.map (·.bytes)).getD [])
    -- temp file written "now"; mtime set on the temp file (local.rs:856-865); rename carries both
    let temp : FileSt := setMtime { bytes := r.temp, mtime := now } src.mtime
    { route := route, file := temp, bytesWritten := r.offset, deltaOps := some r.changed, literalBytes := some r.literal }
  | .deltaInPlace =>
    let r := rebuildInPlaceLoop cfg.blockSize src.bytes ((dst.map (·.bytes)).getD [])
    let temp : FileSt := setMtime { bytes := r.temp, mtime := now } src.mtime
    { route := route, file := temp, bytesWritten := r.offset, deltaOps := some r.changed, literalBytes := some r.literal }

/-- `LocalTransport::sync_file_with_delta(source, dest)`. -/
def syncFileWithDelta (cfg : Cfg) (src : FileSt) (dst : Option FileSt) (now : Nat) : Outcome :=
  perform cfg (routeOf cfg src.bytes (dst.map (·.bytes))) src dst now

end SyModel.Transfer
