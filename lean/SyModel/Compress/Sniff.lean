/-
  SyModel.Compress.Sniff — everything sy adds around the third-party codecs on the
  regular (non-sparse) remote transfer path:

  * `compress` / `decompress` dispatch (src/compress/mod.rs:41-57), the codecs
    themselves being parameters (`Codec`);
  * the sender's branch on the decision (src/transport/ssh.rs:689-886):
    `Lz4 | Zstd` → compress, pipe to `sy-remote receive-file <dest> --mtime <secs>`;
    `None` → SFTP stream + `setstat{mtime}` — *no helper is involved*;
  * the helper's 4-byte zstd magic test (src/bin/sy-remote.rs:158-172 for `apply-delta`,
    :187-198 for `receive-file`), `decompress(.., Zstd)`, write, `--mtime` in whole seconds
    (:211-218).
-/
import SyModel.Compress.Decision
namespace SyModel.Compress

/-- A third-party codec (zstd level 3 via the `zstd` crate; `lz4_flex` size-prepended). -/
structure Codec where
  compress   : Bytes → Bytes
  decompress : Bytes → Option Bytes

/-- the four bytes `sy-remote` compares (cross-checked against the generated constants). -/
def zstdMagic : Bytes := [0x28, 0xB5, 0x2F, 0xFD]

/-- `stdin_data.len() >= 4 && stdin_data[0] == 0x28 && … && stdin_data[3] == 0xFD`. -/
def hasZstdMagic : Bytes → Bool
  | a :: b :: c :: d :: _ => a == 0x28 && b == 0xB5 && c == 0x2F && d == 0xFD
  | _ => false

/-- `decompress (compress x) = x`: the statement about the third-party code that is assumed
    (validated by the harness on every payload), never proved. -/
def Codec.Lossless (C : Codec) : Prop := ∀ x, C.decompress (C.compress x) = some x

/-- every frame the compressor emits starts with the zstd magic number. -/
def Codec.Framed (C : Codec) : Prop := ∀ x, hasZstdMagic (C.compress x) = true

/-- the hypothesis on zstd: lossless, and its output carries the magic. -/
structure Codec.Sound (C : Codec) : Prop where
  lossless : C.Lossless
  framed   : C.Framed

/-- `compress(data, compression)` — `L` is lz4, `Z` is zstd. -/
def compress (L Z : Codec) : Compression → Bytes → Bytes
  | .none, x => x
  | .lz4, x => L.compress x
  | .zstd, x => Z.compress x

/-- `decompress(data, compression)`; `none` is `Err`. -/
def decompress (L Z : Codec) : Compression → Bytes → Option Bytes
  | .none, x => some x
  | .lz4, x => L.decompress x
  | .zstd, x => Z.decompress x

/-- the helper's payload sniffing: zstd magic ⇒ `decompress(.., Zstd)?`, otherwise the bytes as they are. -/
def sniff (Z : Codec) (stdin : Bytes) : Option Bytes :=
  if hasZstdMagic stdin then Z.decompress stdin else some stdin

/-- what a helper leaves on the remote disk: content, and the mtime in whole seconds if one was
    set (`none`: the file keeps the time of the write). -/
structure RemoteFile where
  content  : Bytes
  mtimeSec : Option Nat
deriving Repr, DecidableEq

/-- How a writer opens its output path. `create` is `File::create` (`O_CREAT | O_TRUNC`): whatever
    the path held is gone. `keep` is an `OpenOptions` open without truncation: the old bytes stay
    until they are overwritten. Which one the code uses is regenerated from the source
    (`Generated.HELPER_*_TRUNCATES`). -/
inductive OpenMode where
  | create
  | keep
deriving Repr, DecidableEq

def OpenMode.ofTruncates (b : Bool) : OpenMode := if b then .create else .keep

/-- the bytes of the opened output file; `prior` is what the path held before (`none`: nothing). -/
def openOutput : OpenMode → Option Bytes → Bytes
  | .create, _ => []
  | .keep, prior => prior.getD []

/-- `write_all(data)` at offset 0 of the opened file: bytes beyond the data survive. -/
def writeAll (file data : Bytes) : Bytes := data ++ file.drop data.length

/-- `sy-remote receive-file <out> [--mtime s]`; `none`: the process fails before creating the file
    (`decompress(..)?` precedes `File::create`). -/
def receiveFile (Z : Codec) (stdin : Bytes) (mtimeArg : Option Nat) : Option RemoteFile :=
  (sniff Z stdin).map fun data => { content := data, mtimeSec := mtimeArg }

/-- `receive-file` over a destination path that already holds `prior`, with the open mode `mode`. -/
def receiveFileOver (mode : OpenMode) (Z : Codec) (prior : Option Bytes) (stdin : Bytes)
    (mtimeArg : Option Nat) : Option RemoteFile :=
  (sniff Z stdin).map fun data =>
    { content := writeAll (openOutput mode prior) data, mtimeSec := mtimeArg }

/-- `metadata.modified().ok().and_then(|t| t.duration_since(UNIX_EPOCH).ok()).map(|d| d.as_secs())`:
    source mtime in nanoseconds since the epoch (`none`: unavailable / before the epoch) to whole seconds. -/
def mtimeSecs (srcMtimeNs : Option Nat) : Option Nat := srcMtimeNs.map (· / 1000000000)

/-- Where the sender routes a regular file (ssh.rs:689 `match compression_mode`). -/
inductive Route where
  /-- `execute_command_with_stdin("sy-remote receive-file <dest> [--mtime s]", payload)` -/
  | helper (stdin : Bytes) (mtimeArg : Option Nat)
  /-- `sftp.create(dest)`, `write_all` of every chunk read, `setstat{mtime}` when the mtime is available -/
  | sftp (content : Bytes) (mtimeSec : Option Nat)
deriving Repr, DecidableEq

/-- the sender's branch. -/
def sendFile (L Z : Codec) (decision : Compression) (x : Bytes) (srcMtimeNs : Option Nat) : Route :=
  match decision with
  | .none => .sftp x (mtimeSecs srcMtimeNs)
  | a => .helper (compress L Z a x) (mtimeSecs srcMtimeNs)

/-- the remote file after the route has been executed. The SSH channel and SFTP are assumed to be
    byte-transparent pipes (trusted base). -/
def remoteAfter (Z : Codec) : Route → Option RemoteFile
  | .helper stdin m => receiveFile Z stdin m
  | .sftp content m => some { content := content, mtimeSec := m }

end SyModel.Compress
