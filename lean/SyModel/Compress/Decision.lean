/-
  SyModel.Compress.Decision — the compression decision of src/compress/mod.rs:
  `is_compressed_extension` (:98-106), `should_compress_adaptive` (:116-145),
  `should_compress` (:150-152), `detect_compressibility` (:162-181, as an abstract input)
  and `should_compress_smart` (:222-279).

  File names are `List Char` (Rust `&str`).  The content sample is an input: the model
  receives what `detect_compressibility` computed (`compressed.len()`, `sample.len()`),
  and compares the quotient with 0.9 in exact rationals.  For sample sizes ≤ 64 KiB this
  agrees with the `f64` comparison of the code: both lengths are exact in `f64`, the
  division is correctly rounded and monotone, and when `c/s < 9/10` the gap to `9/10` is
  at least `1/(10·s) ≥ 1.5e-6`, far above one ulp.
-/
import SyModel.Basic
namespace SyModel.Compress

/-- `enum Compression` (mod.rs:8-14). -/
inductive Compression where
  | none | lz4 | zstd
deriving Repr, DecidableEq

/-- `enum CompressionDetection` (mod.rs:185-197). -/
inductive Detection where
  | auto | extension | always | never
deriving Repr, DecidableEq

/-- `COMPRESSED_EXTENSIONS` (mod.rs:87-95); cross-checked against the generated constant in `Props/C14`. -/
def compressedExtensions : List String :=
  ["jpg", "jpeg", "png", "gif", "webp", "avif", "heic", "heif",
   "mp4", "mkv", "avi", "mov", "webm", "m4v", "flv", "wmv",
   "mp3", "m4a", "aac", "ogg", "opus", "flac", "wma",
   "zip", "gz", "bz2", "xz", "7z", "rar", "tar.gz", "tgz", "tar.bz2",
   "pdf", "docx", "xlsx", "pptx",
   "wasm", "br", "zst"]

/-- the small-file gate `file_size < 1024 * 1024` (mod.rs:128, :242). -/
abbrev SIZE_GATE : Nat := 1048576
/-- `ratio < 0.9` (mod.rs:260) as the rational `RATIO_NUM / RATIO_DEN`. -/
abbrev RATIO_NUM : Nat := 9
abbrev RATIO_DEN : Nat := 10
/-- `SAMPLE_SIZE` (mod.rs:163). -/
abbrev SAMPLE_SIZE : Nat := 65536

/-- `u8::to_ascii_lowercase` on a `char` (only `A`–`Z` change). -/
def lowerAscii (c : Char) : Char :=
  if 65 ≤ c.toNat ∧ c.toNat ≤ 90 then Char.ofNat (c.toNat + 32) else c

/-- `str::eq_ignore_ascii_case`. -/
def eqIgnoreAsciiCase (a b : List Char) : Bool := a.map lowerAscii == b.map lowerAscii

/-- `filename.rsplit('.').next()`: the text after the last `.`; the whole name when there is no `.`
    (`rsplit` always yields at least one item, so the `else { false }` arm of the code is dead). -/
def lastSegment (name : List Char) : List Char := (name.reverse.takeWhile (· ≠ '.')).reverse

/-- `is_compressed_extension`. Consequences of the code as written, kept by the model:
    a name without a dot is compared as a whole (`"zip"` counts as compressed), and the
    entries `tar.gz`, `tar.bz2` can never match because the segment contains no dot. -/
def isCompressedExtension (name : List Char) : Bool :=
  compressedExtensions.any fun e => eqIgnoreAsciiCase (lastSegment name) e.toList

/-- `should_compress_adaptive` (the network-speed argument is unused by the code). -/
def shouldCompressAdaptive (name : List Char) (size : Nat) (isLocal : Bool) : Compression :=
  if isLocal then .none
  else if size < SIZE_GATE then .none
  else if isCompressedExtension name then .none
  else .zstd

/-- `should_compress` (legacy wrapper: `is_local = false`). -/
def shouldCompress (name : List Char) (size : Nat) : Compression := shouldCompressAdaptive name size false

/-- What the content sampling step yields. -/
inductive Sample where
  /-- `file_path = None` -/
  | noPath
  /-- `detect_compressibility` returned `Err` -/
  | err
  /-- `Ok(compressed.len() / sample.len())`; `sampleLen = 0` is the `bytes_read == 0 ⇒ Ok(1.0)` arm -/
  | ratio (compressedLen sampleLen : Nat)
deriving Repr, DecidableEq

/-- `ratio < 0.9` for the value `detect_compressibility` returns. -/
def ratioBelow (compressedLen sampleLen : Nat) : Bool :=
  sampleLen ≠ 0 && compressedLen * RATIO_DEN < RATIO_NUM * sampleLen

structure Inputs where
  name    : List Char
  size    : Nat
  isLocal : Bool
  mode    : Detection
  sample  : Sample
deriving Repr

/-- `should_compress_smart`, branch by branch in the order of the code. -/
def shouldCompressSmart (i : Inputs) : Compression :=
  if i.isLocal then .none
  else match i.mode with
    | .always => .zstd
    | .never => .none
    | mode =>
      if i.size < SIZE_GATE then .none
      else if isCompressedExtension i.name then .none
      else if mode = .extension then .zstd
      else match i.sample with
        | .noPath => .zstd
        | .err => .zstd
        | .ratio c s => if ratioBelow c s then .zstd else .none

end SyModel.Compress
