/-
  SyModel.Compress.Sparse — sparse transfers.

  * sender side, src/transport/ssh.rs: `copy_file`'s sparse test (:623-651), `copy_sparse_file`
    (:334-505): regions from `detect_data_regions` (an *input* here — the kernel's
    SEEK_DATA/SEEK_HOLE answer), fall back to the regular path when detection fails, returns
    no region, a region cannot be read, or the helper fails; otherwise
    `sy-remote receive-sparse-file <dest> --total-size <len> --regions '<json>' [--mtime s]`
    with the concatenated region bytes on stdin;
  * helper, src/bin/sy-remote.rs:223-278: parse the regions JSON, `set_len(total_size)`, then for
    every region `seek(offset)`, `read_exact(length)` from stdin, `write_all`; `--mtime`;
  * local copiers, src/transport/local.rs: `copy_sparse_file_seek` (:50-125) and
    `copy_sparse_file_blocks` (:129-170).

  A file is its content `Bytes`; holes are runs of zero bytes (what `read` returns for them).
-/
import SyModel.Json
import SyModel.Compress.Sniff
namespace SyModel.Compress
open SyModel.Json

/-- `struct DataRegion { offset: u64, length: u64 }` (src/sparse.rs:16-21, duplicated in ssh.rs:23-26). -/
structure Region where
  offset : Nat
  length : Nat
deriving Repr, DecidableEq

def zeros (n : Nat) : Bytes := List.replicate n 0

/-- the bytes of `content` in `[offset, offset+length)`, cut at end of file. -/
def slice (content : Bytes) (r : Region) : Bytes := (content.drop r.offset).take r.length

/-- `seek(SeekFrom::Start(offset))` then `read_exact(length)`; `none` is `UnexpectedEof`. -/
def readRegion (content : Bytes) (r : Region) : Option Bytes :=
  if r.length = 0 ∨ r.offset + r.length ≤ content.length then some (slice content r) else none

/-- ssh.rs:427-463 — the sender's `data_buffer`: all regions read in order and concatenated. -/
def gather (content : Bytes) : List Region → Option Bytes
  | [] => some []
  | r :: rs =>
    match readRegion content r, gather content rs with
    | some a, some b => some (a ++ b)
    | _, _ => none

/-- `seek(SeekFrom::Start(off))` then `write_all(data)` on a regular file: overwrites, extends the
    file when the range passes its end, and a seek beyond the end leaves a zero gap.
    Writing nothing changes nothing (`write_all(&[])` performs no `write`). -/
def writeAt (file : Bytes) (off : Nat) (data : Bytes) : Bytes :=
  if data.isEmpty then file
  else (file ++ zeros (off - file.length)).take off ++ data ++ file.drop (off + data.length)

/-- `File::set_len`: truncate or extend with zeros. -/
def setLen (file : Bytes) (n : Nat) : Bytes := file.take n ++ zeros (n - file.length)

/-! ### regions JSON (`serde_json::to_string(&Vec<DataRegion>)` / `serde_json::from_str`) -/

def encodeRegion (r : Region) : Bytes :=
  lit "{\"offset\":" ++ printNat r.offset ++ lit ",\"length\":" ++ printNat r.length ++ lit "}"

def encodeRegionList : List Region → Bytes
  | [] => []
  | [r] => encodeRegion r
  | r :: r2 :: t => encodeRegion r ++ 44 :: encodeRegionList (r2 :: t)

/-- e.g. `[{"offset":0,"length":1024},{"offset":4096,"length":2048}]` -/
def encodeRegions (rs : List Region) : Bytes := 91 :: (encodeRegionList rs ++ [93])

def parseRegion (l : Bytes) : Option (Region × Bytes) :=
  match expect (lit "{\"offset\":") l with
  | none => none
  | some r1 =>
    match parseNat r1 with
    | none => none
    | some (o, r2) =>
      match expect (lit ",\"length\":") r2 with
      | none => none
      | some r3 =>
        match parseNat r3 with
        | none => none
        | some (n, r4) =>
          match r4 with
          | 125 :: r5 => some ({ offset := o, length := n }, r5)
          | _ => none

theorem parseRegion_length {l : Bytes} {x : Region} {r : Bytes} (h : parseRegion l = some (x, r)) :
    r.length < l.length := by
  unfold parseRegion at h
  split at h <;> try (simp at h)
  rename_i r1 h1
  split at h <;> try (simp at h)
  rename_i o r2 h2
  split at h <;> try (simp at h)
  rename_i r3 h3
  split at h <;> try (simp at h)
  rename_i n r4 h4
  split at h <;> try (simp at h)
  rename_i r5
  have a1 := expect_length h1
  have a2 := parseNat_length h2
  have a3 := expect_length h3
  have a4 := parseNat_length h4
  rw [← h.2]
  simp only [List.length_cons] at a4
  omega

/-- regions after the first one has been announced: `region (, region)* ]` -/
def parseRegionElems (l : Bytes) : Option (List Region × Bytes) :=
  match _h : parseRegion l with
  | some (x, 44 :: r') =>
    match parseRegionElems r' with
    | some (xs, r'') => some (x :: xs, r'')
    | none => none
  | some (x, 93 :: r') => some ([x], r')
  | _ => none
termination_by l.length
decreasing_by
  have := parseRegion_length _h
  simp only [List.length_cons] at this; omega

/-- the canonical form of `Vec<DataRegion>`; trailing bytes are an error. -/
def decodeRegions : Bytes → Option (List Region)
  | 91 :: 93 :: [] => some []
  | 91 :: l =>
    match parseRegionElems l with
    | some (rs, []) => some rs
    | _ => none
  | _ => none

/-! ### the helper -/

/-- the loop of `receive-sparse-file` over the regions, reading stdin sequentially.
    `none`: `read_exact` hit end of input (the helper exits with an error). Surplus input is ignored. -/
def receiveSparseGo (file : Bytes) : List Region → Bytes → Option Bytes
  | [], _ => some file
  | r :: rs, stdin =>
    if stdin.length < r.length then none
    else receiveSparseGo (writeAt file r.offset (stdin.take r.length)) rs (stdin.drop r.length)

/-- `File::create`, `set_len(total_size)`, then the loop. -/
def receiveSparse (totalSize : Nat) (regions : List Region) (stdin : Bytes) : Option Bytes :=
  receiveSparseGo (setLen [] totalSize) regions stdin

/-- the same over a destination path that already holds `prior`, opened with `mode`. -/
def receiveSparseOver (mode : OpenMode) (prior : Option Bytes) (totalSize : Nat) (regions : List Region)
    (stdin : Bytes) : Option Bytes :=
  receiveSparseGo (setLen (openOutput mode prior) totalSize) regions stdin

/-- `sy-remote receive-sparse-file <out> --total-size n --regions <json> [--mtime s]`. -/
def receiveSparseFile (totalSize : Nat) (regionsArg : Bytes) (stdin : Bytes) (mtimeArg : Option Nat) :
    Option RemoteFile :=
  match decodeRegions regionsArg with
  | none => none
  | some rs =>
    match receiveSparse totalSize rs stdin with
    | some c => some { content := c, mtimeSec := mtimeArg }
    | none => none

def receiveSparseFileOver (mode : OpenMode) (prior : Option Bytes) (totalSize : Nat) (regionsArg : Bytes)
    (stdin : Bytes) (mtimeArg : Option Nat) : Option RemoteFile :=
  match decodeRegions regionsArg with
  | none => none
  | some rs =>
    match receiveSparseOver mode prior totalSize rs stdin with
    | some c => some { content := c, mtimeSec := mtimeArg }
    | none => none

/-! ### the sender -/

/-- what `copy_sparse_file` does with a source file. -/
inductive SparseSend where
  /-- the helper command with its arguments and stdin -/
  | helper (totalSize : Nat) (regionsArg : Bytes) (stdin : Bytes) (mtimeArg : Option Nat)
  /-- `Err(..)`: the caller falls through to the regular transfer -/
  | fallback
deriving Repr, DecidableEq

/-- `detected`: result of `detect_data_regions` (`none` = `Err`). -/
def sendSparse (content : Bytes) (detected : Option (List Region)) (srcMtimeNs : Option Nat) : SparseSend :=
  match detected with
  | none => .fallback
  | some [] => .fallback                    -- "Sparse detection returned no regions"
  | some rs =>
    match gather content rs with
    | some buf => .helper content.length (encodeRegions rs) buf (mtimeSecs srcMtimeNs)
    | none => .fallback

/-- ssh.rs:626 `allocated_size < file_size && file_size > 0` (`allocated = blocks * 512`). -/
def isSparseRemote (allocated size : Nat) : Bool := allocated < size && 0 < size

structure CopyInputs where
  content    : Bytes
  srcMtimeNs : Option Nat
  /-- `metadata.blocks() * 512` -/
  allocated  : Nat
  /-- what `detect_data_regions` answers (only consulted for sparse files) -/
  detected   : Option (List Region)
  /-- inputs of the compression decision of the regular path -/
  decision   : Inputs

/-- `SshTransport::copy_file`: sparse attempt first, regular path (compression decision, helper or
    SFTP) otherwise or when the sparse attempt fails. Result: the remote file. -/
def copyFileRemote (L Z : Codec) (ci : CopyInputs) : Option RemoteFile :=
  let regular := remoteAfter Z (sendFile L Z (shouldCompressSmart ci.decision) ci.content ci.srcMtimeNs)
  if isSparseRemote ci.allocated ci.content.length then
    match sendSparse ci.content ci.detected ci.srcMtimeNs with
    | .helper total regs stdin m =>
      match receiveSparseFile total regs stdin m with
      | some f => some f
      | none => regular
    | .fallback => regular
  else regular

/-! ### local copiers (src/transport/local.rs) -/

/-- `is_file_sparse`: `file_size > 4096 && allocated < file_size - 4096`. -/
abbrev SPARSE_THRESHOLD : Nat := 4096
def isSparseLocal (allocated size : Nat) : Bool :=
  SPARSE_THRESHOLD < size && allocated < size - SPARSE_THRESHOLD

/-- `copy_sparse_file_seek`: the destination is created empty; every data region the lseek loop
    enumerates is copied to the same offset; finally `set_len(file_size)`. (`regions = []` also
    covers the "ENXIO on the first SEEK_DATA ⇒ all holes" exit, which only does the `set_len`.) -/
def localSeek (content : Bytes) (regions : List Region) : Bytes :=
  setLen (regions.foldl (fun f r => writeAt f r.offset (slice content r)) []) content.length

/-- `copy_sparse_file` over an existing destination opened with `mode`. -/
def localSeekOver (mode : OpenMode) (prior : Option Bytes) (content : Bytes) (regions : List Region) : Bytes :=
  setLen (regions.foldl (fun f r => writeAt f r.offset (slice content r)) (openOutput mode prior)) content.length

/-- `BLOCK_SIZE` of `copy_sparse_file_blocks`. -/
abbrev LOCAL_BLOCK : Nat := 4096

/-- the loop of `copy_sparse_file_blocks`: all-zero blocks are skipped, others written at `pos`. -/
def blocksGo (blk : Nat) (file : Bytes) (pos : Nat) (rest : Bytes) : Bytes :=
  if _h : blk = 0 ∨ rest = [] then file
  else
    let b := rest.take blk
    let file' := if b.all (· == 0) then file else writeAt file pos b
    blocksGo blk file' (pos + b.length) (rest.drop blk)
termination_by rest.length
decreasing_by
  have h1 : blk ≠ 0 := fun e => _h (Or.inl e)
  have h2 : rest ≠ [] := fun e => _h (Or.inr e)
  have : 0 < rest.length := List.length_pos_iff.mpr h2
  simp only [List.length_drop]; omega

/-- `copy_sparse_file_blocks`: `set_len(file_size)` first, then the block loop. -/
def localBlocks (content : Bytes) : Bytes :=
  blocksGo LOCAL_BLOCK (setLen [] content.length) 0 content

/-- `copy_sparse_file_blocks` over an existing destination opened with `mode`. -/
def localBlocksOver (mode : OpenMode) (prior : Option Bytes) (content : Bytes) : Bytes :=
  blocksGo LOCAL_BLOCK (setLen (openOutput mode prior) content.length) 0 content

end SyModel.Compress
