/-
  SyModel.Bisync.Exec — model of `/repo/src/bisync/engine.rs` and `state.rs` on a two-root
  world of regular files.

  * `File` = one file version: unique content id, size, mtime (Nat ns).
  * `Root` = finite map path ↦ file (association list; `aset` puts the key in front, `aerase`
    filters — only `aget` is observable).
  * `Db` = the `sync_state` table: rows keyed by (path, side) (state.rs:95-103, `store` is
    INSERT OR REPLACE :147, `delete` removes both sides :237-243, `load_all` pairs the rows by
    path :198-234).
  * `execOne` = `execute_single_action` (engine.rs:288-332): `fs::copy` gives the destination the
    source's bytes and a NEW mtime (`now`, the logical clock); `remove_file`; two `rename`s to
    the conflict names (a rename replaces an existing target; the second rename is not
    attempted when the first fails). Errors are collected, never abort (engine.rs:258-279).
  * `updateStatePinned` = `update_state` as shipped (engine.rs:350-413): ONE row per copy — the
    row of the side copied TO, holding the metadata of the file copied FROM as scanned; rows
    deleted on delete; after a rename both rows stored for the (now vanished) original path;
    recorded even when the action failed.
  * `updateStateRepaired` = `update_state` of `fix-bisync-state.diff`.
  * `sync` = `BisyncEngine::sync` (engine.rs:76-139).
-/
import SyModel.Bisync.Resolver
namespace SyModel.Bisync

structure File where
  cid : Nat
  size : Nat
  mtime : Nat
  deriving DecidableEq, Repr, Inhabited

/-! ### finite maps -/

def aget {κ β} [DecidableEq κ] (k : κ) : List (κ × β) → Option β
  | [] => none
  | (k', v) :: t => if k' = k then some v else aget k t

def aerase {κ β} [DecidableEq κ] (k : κ) (m : List (κ × β)) : List (κ × β) :=
  m.filter (fun kv => kv.1 ≠ k)

def aset {κ β} [DecidableEq κ] (k : κ) (v : β) (m : List (κ × β)) : List (κ × β) :=
  (k, v) :: aerase k m

abbrev Root := List (Path × File)
abbrev Db := List ((Path × Side) × Row)

/-- `BisyncStateDb::delete` (state.rs:237-243): both sides of the path. -/
def Db.delete (p : Path) (db : Db) : Db := db.filter (fun kv => kv.1.1 ≠ p)

/-- `load_all` (state.rs:198-234): one pair per path that has at least one row. -/
def Db.loadAll (db : Db) : List (Path × (Option Row × Option Row)) :=
  (dedup (db.map (·.1.1))).map fun p => (p, (aget (p, Side.source) db, aget (p, Side.dest) db))

structure World where
  left : Root      -- "source" root
  right : Root     -- "dest" root
  db : Db
  clock : Nat      -- logical "now": strictly larger than every mtime handed out so far
  deriving Repr

def File.meta (f : File) : Row := ⟨f.mtime, f.size⟩
def File.entry (f : File) : Entry := { size := f.size, mtime := f.mtime, isDir := false, content := some f.cid }

/-- `Scanner::scan` restricted to regular files (scanner.rs:254-343). -/
def scan (r : Root) : List (Path × Entry) := r.map fun kv => (kv.1, kv.2.entry)

/-! ### action execution -/

structure ExecState where
  left : Root
  right : Root
  errors : List Path      -- the path of every failed action, in order (engine.rs:275-277)
  deriving Repr

/-- `fs::copy src dst`: bytes and size of the source as it is NOW; mtime = now. -/
def copyFile (now : Nat) (p : Path) (src dst : Root) : Option Root :=
  (aget p src).map fun f => aset p { f with mtime := now } dst

/-- `fs::rename a b` inside one root. -/
def renameFile (a b : Path) (r : Root) : Option Root :=
  (aget a r).map fun f => aset b f (aerase a r)

def execOne (now : Nat) (st : ExecState) : Action → ExecState
  | .copyToSource p _ =>
    match copyFile now p st.right st.left with
    | some l => { st with left := l }
    | none => { st with errors := st.errors ++ [p] }
  | .copyToDest p _ =>
    match copyFile now p st.left st.right with
    | some r => { st with right := r }
    | none => { st with errors := st.errors ++ [p] }
  | .deleteFromSource p =>
    match aget p st.left with
    | some _ => { st with left := aerase p st.left }
    | none => { st with errors := st.errors ++ [p] }
  | .deleteFromDest p =>
    match aget p st.right with
    | some _ => { st with right := aerase p st.right }
    | none => { st with errors := st.errors ++ [p] }
  | .renameConflict p _ _ stamp =>
    match renameFile p (conflictName p stamp .source) st.left with
    | none => { st with errors := st.errors ++ [p] }
    | some l =>
      match renameFile p (conflictName p stamp .dest) st.right with
      | none => { st with left := l, errors := st.errors ++ [p] }
      | some r => { st with left := l, right := r }

/-- `execute_actions` (engine.rs:250-285). -/
def execActions (now : Nat) (acts : List Action) (st : ExecState) : ExecState :=
  acts.foldl (execOne now) st

/-! ### state update -/

/-- engine.rs:350-413 as shipped. -/
def updateStatePinned (db : Db) : List Action → Db
  | [] => db
  | a :: t =>
    let db' := match a with
      | .copyToSource p e => aset (p, Side.source) ⟨e.mtime, e.size⟩ db
      | .copyToDest p e => aset (p, Side.dest) ⟨e.mtime, e.size⟩ db
      | .deleteFromSource p => Db.delete p db
      | .deleteFromDest p => Db.delete p db
      | .renameConflict p s d _ =>
        aset (p, Side.dest) ⟨d.mtime, d.size⟩ (aset (p, Side.source) ⟨s.mtime, s.size⟩ db)
    updateStatePinned db' t

/-- `update_state` of `fix-bisync-state.diff`: for every known path whose action did not fail,
    both rows from the files' current metadata if the path is a file on both sides, no rows
    otherwise. -/
def updateStateRepaired (left right : Root) (failed : List Path) (db : Db) : List Path → Db
  | [] => db
  | p :: t =>
    let db' :=
      if p ∈ failed then db
      else match aget p left, aget p right with
        | some l, some r => aset (p, Side.dest) r.meta (aset (p, Side.source) l.meta db)
        | _, _ => Db.delete p db
    updateStateRepaired left right failed db' t

/-! ### the deletion limit (engine.rs:149-180) -/

/-- exact-arithmetic reading of `deletions / total * 100.0 > max` (f64 in the code; the two
    agree whenever `deletions * 100 ≠ max * total`, see `deletionTie`). -/
def deletionLimitExceeded (changes : List Change) (maxDelete : Nat) : Bool :=
  let total := changes.length
  let dels := (changes.filter (·.ctype.isDeletion)).length
  maxDelete ≠ 0 && total ≠ 0 && decide (dels * 100 > maxDelete * total)

def deletionTie (changes : List Change) (maxDelete : Nat) : Bool :=
  let total := changes.length
  let dels := (changes.filter (·.ctype.isDeletion)).length
  maxDelete ≠ 0 && total ≠ 0 && dels * 100 == maxDelete * total

/-! ### one bidirectional sync -/

structure SyncResult where
  world : World
  changes : List Change
  actions : List Action
  errors : List Path
  refused : Bool
  deriving Repr

def World.changes (cfg : Cfg) (w : World) : List Change :=
  classifyChanges cfg (scan w.left) (scan w.right) w.db.loadAll

/-- the path set handed to the repaired `update_state`: prior keys and scanned files. -/
def World.allPaths (w : World) : List Path :=
  allPathsOf (scan w.left) (scan w.right) w.db.loadAll

/-- `BisyncEngine::sync` (engine.rs:76-139), not a dry run. A refused run (deletion limit)
    returns `Err` before anything is touched. The clock advances past the stamp it handed out. -/
def sync (cfg : Cfg) (strat : Strategy) (maxDelete stamp : Nat) (w : World) : SyncResult :=
  let changes := w.changes cfg
  if deletionLimitExceeded changes maxDelete then
    { world := { w with clock := w.clock + 1 }, changes := changes, actions := [], errors := [], refused := true }
  else
    let actions := resolveChanges strat stamp changes
    let st := execActions w.clock actions ⟨w.left, w.right, []⟩
    let db := if cfg.fixState then updateStateRepaired st.left st.right st.errors w.db w.allPaths
              else updateStatePinned w.db actions
    { world := { left := st.left, right := st.right, db := db, clock := w.clock + 1 },
      changes := changes, actions := actions, errors := st.errors, refused := false }

end SyModel.Bisync
