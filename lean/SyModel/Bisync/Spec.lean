/-
  SyModel.Bisync.Spec — the vocabulary in which C11 and C12 are stated (definitions only).
-/
import SyModel.Bisync.History
namespace SyModel.Bisync

/-- what "identical contents" compares: the content id (and the size it determines). -/
def File.content (f : File) : Nat × Nat := (f.cid, f.size)

/-- both roots contain the same set of files with identical contents. -/
def treesEqual (w : World) : Prop :=
  ∀ p, (aget p w.left).map File.content = (aget p w.right).map File.content

/-- the two state rows of a path. -/
def World.rows (w : World) (p : Path) : Option Row × Option Row :=
  (aget (p, Side.source) w.db, aget (p, Side.dest) w.db)

/-- how the classifier sees path `p` in `w`. -/
def World.ctypeAt (cfg : Cfg) (w : World) (p : Path) : Option ChangeType :=
  classifySingle cfg ((aget p w.left).map File.entry) ((aget p w.right).map File.entry)
    (w.rows p).1 (w.rows p).2

/-- the action the resolver chooses for a conflict at `p`. -/
def World.conflictAction (strat : Strategy) (stamp : Nat) (w : World) (p : Path) : Action :=
  resolveConflict strat p ((aget p w.left).map File.entry) ((aget p w.right).map File.entry) stamp

/-- a path has both rows or none. -/
def Paired (w : World) : Prop :=
  ∀ p, (w.rows p).1 = none ↔ (w.rows p).2 = none

/-- prior sync state that a sync can have left behind: rows come in pairs, and two files that
    both still match their rows hold the same content. -/
def Consistent (w : World) : Prop :=
  Paired w ∧
  ∀ p l r rl rr, aget p w.left = some l → aget p w.right = some r →
    w.rows p = (some rl, some rr) →
    isModified l.entry rl = false → isModified r.entry rr = false → l.content = r.content

/-- content id `v` is the content of some file of `w` (on either side, under any name —
    a conflict copy counts). -/
def hasVersion (w : World) (v : Nat) : Prop :=
  ∃ p f, (aget p w.left = some f ∨ aget p w.right = some f) ∧ f.cid = v

/-- `v` is the previously synchronised version of a path (it still matches its row) and the
    other side of that path changed (modified or deleted). -/
def supersededBase (w : World) (v : Nat) : Prop :=
  ∃ p f rl rr, w.rows p = (some rl, some rr) ∧ f.cid = v ∧
    ((aget p w.left = some f ∧ isModified f.entry rl = false ∧
        (aget p w.right = none ∨ ∃ g, aget p w.right = some g ∧ isModified g.entry rr = true)) ∨
     (aget p w.right = some f ∧ isModified f.entry rr = false ∧
        (aget p w.left = none ∨ ∃ g, aget p w.left = some g ∧ isModified g.entry rl = true)))

def Action.discardsLeft : Action → Bool
  | .copyToSource .. | .deleteFromSource .. => true
  | _ => false

def Action.discardsRight : Action → Bool
  | .copyToDest .. | .deleteFromDest .. => true
  | _ => false

/-- `v` is on the losing side of a path classified as a conflict, and the selected strategy
    chose the other side. -/
def chosenLoser (cfg : Cfg) (strat : Strategy) (stamp : Nat) (w : World) (v : Nat) : Prop :=
  ∃ p ct f, w.ctypeAt cfg p = some ct ∧ ct.isConflict = true ∧ f.cid = v ∧
    ((aget p w.left = some f ∧ (w.conflictAction strat stamp p).discardsLeft = true) ∨
     (aget p w.right = some f ∧ (w.conflictAction strat stamp p).discardsRight = true))

def noRenames (r : SyncResult) : Prop := ∀ a ∈ r.actions, a.isRename = false

/-! ### histories -/

/-- side changed at `p` since the last sync: what it holds now is not the agreed version
    (a path with no agreed version counts as absent at the last sync). -/
def Trace.changedL (t : Trace) (p : Path) : Prop := aget p t.w.left ≠ (t.agreed p).map (·.1)
def Trace.changedR (t : Trace) (p : Path) : Prop := aget p t.w.right ≠ (t.agreed p).map (·.2)

instance (t : Trace) (p : Path) : Decidable (t.changedL p) := by unfold Trace.changedL; infer_instance
instance (t : Trace) (p : Path) : Decidable (t.changedR p) := by unfold Trace.changedR; infer_instance

/-- start of a history: any two trees, no sync state yet, every mtime in the past. -/
structure Trace.Init (t : Trace) : Prop where
  db : t.w.db = []
  baseL : t.baseL = []
  baseR : t.baseR = []
  clock : t.syncClock < t.w.clock
  past : ∀ p f, (aget p t.w.left = some f ∨ aget p t.w.right = some f) → f.mtime < t.w.clock

/-- the invariant carried along every history (C12 `paired_state`). -/
structure Inv (t : Trace) : Prop where
  /-- the rows of a path are exactly the metadata of the agreed pair (none if nothing agreed) -/
  rows : ∀ p, t.w.rows p = match t.agreed p with
    | some (a, b) => (some a.meta, some b.meta)
    | none => (none, none)
  /-- an agreed pair has one content -/
  agree : ∀ p a b, t.agreed p = some (a, b) → a.content = b.content
  /-- agreed versions are not younger than the last sync, which is in the past -/
  old : ∀ p a b, t.agreed p = some (a, b) → a.mtime ≤ t.syncClock ∧ b.mtime ≤ t.syncClock
  clock : t.syncClock < t.w.clock
  /-- a side that no longer holds its agreed version holds nothing or something younger -/
  newerL : ∀ p a b, t.agreed p = some (a, b) → ∀ f, aget p t.w.left = some f → f = a ∨ t.syncClock < f.mtime
  newerR : ∀ p a b, t.agreed p = some (a, b) → ∀ f, aget p t.w.right = some f → f = b ∨ t.syncClock < f.mtime
  past : ∀ p f, (aget p t.w.left = some f ∨ aget p t.w.right = some f) → f.mtime < t.w.clock

end SyModel.Bisync
