/-
  SyModel.Bisync.History — histories of user edits on either root interleaved with syncs.

  Edit alphabet of C12: {create, modify with size change, modify keeping size, delete, touch,
  nothing} × {left (source), right (dest)}. Every edit that writes stamps the file with the
  logical clock (mtime := now) and every written version gets a fresh content id (:= now), so
  "this version still exists somewhere" is decidable and two distinct writes never carry the
  same id. The clock advances by one with every event; only the ORDER of time stamps is ever
  inspected by the code (strict `>` on exact nanoseconds), so any strictly increasing
  realisation of the ticks (1 ns apart, 1 s apart, …) behaves identically.

  A `Trace` carries, next to the world, the ghost snapshot `baseL/baseR` of both roots taken
  right after the last completed sync; the algorithm never reads it. It is what
  "since the last sync" in the property refers to.
-/
import SyModel.Bisync.Exec
namespace SyModel.Bisync

inductive EditOp
  | create (size : Nat)   -- only if absent
  | modSize               -- new content, size + 1
  | modSame               -- new content, same size
  | delete
  | touch                 -- same content, mtime := now
  | nothing
  deriving DecidableEq, Repr, Inhabited

inductive Event
  | edit (side : Side) (p : Path) (op : EditOp)
  | sync (strat : Strategy) (maxDelete stamp : Nat)
  deriving DecidableEq, Repr

def editRoot (now : Nat) (p : Path) (op : EditOp) (r : Root) : Root :=
  match op, aget p r with
  | .create sz, none => aset p ⟨now, sz, now⟩ r
  | .modSize, some f => aset p ⟨now, f.size + 1, now⟩ r
  | .modSame, some f => aset p ⟨now, f.size, now⟩ r
  | .delete, some _ => aerase p r
  | .touch, some f => aset p { f with mtime := now } r
  | _, _ => r

def applyEdit (side : Side) (p : Path) (op : EditOp) (w : World) : World :=
  match side with
  | .source => { w with left := editRoot w.clock p op w.left, clock := w.clock + 1 }
  | .dest => { w with right := editRoot w.clock p op w.right, clock := w.clock + 1 }

structure Trace where
  w : World
  baseL : Root
  baseR : Root
  syncClock : Nat
  deriving Repr

/-- the empty start: nothing on either side, no state, clock 1. -/
def Trace.empty : Trace := ⟨⟨[], [], [], 1⟩, [], [], 0⟩

def Trace.step (cfg : Cfg) (t : Trace) : Event → Trace
  | .edit side p op => { t with w := applyEdit side p op t.w }
  | .sync strat md stamp =>
    let r := sync cfg strat md stamp t.w
    if r.refused then { t with w := r.world }
    else { w := r.world, baseL := r.world.left, baseR := r.world.right, syncClock := t.w.clock }

def run (cfg : Cfg) (h : List Event) (t : Trace) : Trace := h.foldl (Trace.step cfg) t

/-- the version both sides agreed on at the last sync, if any. -/
def Trace.agreed (t : Trace) (p : Path) : Option (File × File) :=
  match aget p t.baseL, aget p t.baseR with
  | some a, some b => some (a, b)
  | _, _ => none

/-! ### freshness of conflict names -/

def nodupB : List Path → Bool
  | [] => true
  | a :: t => !(t.contains a) && nodupB t

def conflictNames (w : World) (stamp : Nat) : List Path :=
  w.allPaths.flatMap fun p => [conflictName p stamp .source, conflictName p stamp .dest]

/-- the conflict names `stamp` would produce are pairwise distinct and name nothing that
    exists on either side or in the state (true in practice: the stamp is the wall-clock second;
    see INTEGRATION.md for the one wall-clock corner where it is not). -/
def freshB (w : World) (stamp : Nat) : Bool :=
  nodupB (conflictNames w stamp) && (conflictNames w stamp).all fun q => !(w.allPaths.contains q)

def Fresh (w : World) (stamp : Nat) : Prop := freshB w stamp = true

instance (w : World) (stamp : Nat) : Decidable (Fresh w stamp) := by unfold Fresh; infer_instance

def freshRunB (cfg : Cfg) : List Event → Trace → Bool
  | [], _ => true
  | e :: h, t =>
    (match e with
     | .sync _ _ stamp => freshB t.w stamp
     | _ => true) && freshRunB cfg h (t.step cfg e)

/-- every sync of the history meets a fresh stamp. -/
def FreshRun (cfg : Cfg) (h : List Event) (t : Trace) : Prop := freshRunB cfg h t = true

instance (cfg : Cfg) (h : List Event) (t : Trace) : Decidable (FreshRun cfg h t) := by
  unfold FreshRun; infer_instance

/-! ### log of a run, for the driver -/

structure SyncLog where
  result : SyncResult
  fresh : Bool
  tie : Bool
  deriving Repr

def runLog (cfg : Cfg) : List Event → Trace → List SyncLog
  | [], _ => []
  | e :: h, t =>
    let rest := runLog cfg h (t.step cfg e)
    match e with
    | .sync strat md stamp =>
      ⟨sync cfg strat md stamp t.w, freshB t.w stamp, deletionTie (t.w.changes cfg) md⟩ :: rest
    | _ => rest

end SyModel.Bisync
