/-
  SyModel.Bisync.Classifier — model of `/repo/src/bisync/classifier.rs`.

  `classifySingle` is the 4-tuple match of `classify_single_path` (classifier.rs:82-208) with
  its arms in source order, including the partial-prior arms (161-182) and the catch-all
  (188-199); `isModified` is classifier.rs:211-219 (size differs, or mtime STRICTLY newer,
  exact nanoseconds — there is no tolerance here); `contentEqual` is classifier.rs:222-233.

  `Cfg` selects between the pinned code and the two proposed repairs
  (`fix-bisync-content-equal.diff`, `fix-bisync-state.diff`); `Cfg.pinned` is the tree as
  shipped, `Cfg.repaired` is the tree with both diffs applied.
-/
namespace SyModel.Bisync

/-- relative path, as characters (component separator `/`). -/
abbrev Path := List Char

inductive Side | source | dest
  deriving DecidableEq, Repr, Inhabited

/-- which of the two repairs are present in the code being modelled. -/
structure Cfg where
  /-- `content_equal` compares bytes when sizes are equal and both files are readable. -/
  fixContent : Bool
  /-- `update_state` records both sides from the files' actual (post-copy) metadata. -/
  fixState : Bool
  deriving DecidableEq, Repr

def Cfg.pinned : Cfg := ⟨false, false⟩
def Cfg.repaired : Cfg := ⟨true, true⟩

/-- the fields of `FileEntry` bisync reads. `content` is the content id of the bytes found at
    `entry.path` — `none` for an entry that does not name a readable file (the fabricated,
    metadata-only entries of the unit tests). -/
structure Entry where
  size : Nat
  mtime : Nat
  isDir : Bool := false
  content : Option Nat := none
  deriving DecidableEq, Repr, Inhabited

/-- `SyncState` without its key (path, side); `checksum` is always `None` in the code and
    `last_sync` is never read. -/
structure Row where
  mtime : Nat
  size : Nat
  deriving DecidableEq, Repr, Inhabited

inductive ChangeType
  | newInSource | newInDest | modifiedInSource | modifiedInDest
  | deletedFromSource | deletedFromDest
  | modifiedBoth | createCreate | modifyDelete
  deriving DecidableEq, Repr, Inhabited

def ChangeType.isConflict : ChangeType → Bool
  | .modifiedBoth | .createCreate | .modifyDelete => true
  | _ => false

def ChangeType.isDeletion : ChangeType → Bool
  | .deletedFromSource | .deletedFromDest => true
  | _ => false

/-- classifier.rs:211-219. -/
def isModified (e : Entry) (r : Row) : Bool :=
  if e.size ≠ r.size then true else decide (e.mtime > r.mtime)

/-- classifier.rs:222-233 (pinned: sizes only). Repaired: equal sizes ⇒ byte comparison when
    both files can be read, size-only answer otherwise. -/
def contentEqual (cfg : Cfg) (s d : Entry) : Bool :=
  if s.size ≠ d.size then false
  else if cfg.fixContent then
    match s.content, d.content with
    | some a, some b => a == b
    | _, _ => true
  else true

/-- classifier.rs:82-208; `none` = "no change" (`Ok(None)`). -/
def classifySingle (cfg : Cfg) (s d : Option Entry) (ps pd : Option Row) : Option ChangeType :=
  -- :90 skip directories
  if (s.map (·.isDir)).getD false || (d.map (·.isDir)).getD false then none
  else
    match s, d, ps, pd with
    | some s, some d, none, none =>                                   -- :96
      if contentEqual cfg s d then none else some .createCreate
    | some _, none, none, none => some .newInSource                   -- :106
    | none, some _, none, none => some .newInDest                     -- :109
    | some s, some d, some ps, some pd =>                             -- :112
      match isModified s ps, isModified d pd with
      | false, false => none
      | true, false => some .modifiedInSource
      | false, true => some .modifiedInDest
      | true, true => if contentEqual cfg s d then none else some .modifiedBoth
    | none, some d, some _, some pd =>                                -- :132
      if isModified d pd then some .modifyDelete else some .deletedFromSource
    | some s, none, some ps, some _ =>                                -- :142
      if isModified s ps then some .modifyDelete else some .deletedFromDest
    | none, none, some _, some _ => none                              -- :152
    | some _, none, none, some _ => some .deletedFromDest             -- :155
    | none, some _, some _, none => some .deletedFromSource           -- :158
    | some s, some d, some ps, none =>                                -- :161
      if isModified s ps && !contentEqual cfg s d then some .createCreate
      else if contentEqual cfg s d then none
      else some .newInDest
    | some s, some d, none, some pd =>                                -- :173
      if isModified d pd && !contentEqual cfg s d then some .createCreate
      else if contentEqual cfg s d then none
      else some .newInSource
    | none, none, _, _ => none                                        -- :185
    | some _, none, some _, none => some .newInSource                 -- :188 catch-all, source only
    | none, some _, none, some _ => some .newInDest                   -- :188 catch-all, dest only

/-- the branch tag echoed by the driver (which arm decided). -/
def classifyTag (s d : Option Entry) (ps pd : Option Row) : String :=
  if (s.map (·.isDir)).getD false || (d.map (·.isDir)).getD false then "dir"
  else
    match s, d, ps, pd with
    | some _, some _, none, none => "both-new"
    | some _, none, none, none => "src-new"
    | none, some _, none, none => "dst-new"
    | some _, some _, some _, some _ => "both-prior"
    | none, some _, some _, some _ => "src-gone"
    | some _, none, some _, some _ => "dst-gone"
    | none, none, some _, some _ => "both-gone"
    | some _, none, none, some _ => "partial-src-only-dstrow"
    | none, some _, some _, none => "partial-dst-only-srcrow"
    | some _, some _, some _, none => "partial-both-srcrow"
    | some _, some _, none, some _ => "partial-both-dstrow"
    | none, none, _, _ => "none-now"
    | some _, none, some _, none => "catchall-src"
    | none, some _, none, some _ => "catchall-dst"

/-- `Change` (classifier.rs:30-35). -/
structure Change where
  path : Path
  ctype : ChangeType
  s : Option Entry
  d : Option Entry
  deriving DecidableEq, Repr

/-- association-list lookup, first match (the scanner never yields a path twice). -/
def lookup {β} (k : Path) : List (Path × β) → Option β
  | [] => none
  | (k', v) :: t => if k' = k then some v else lookup k t

/-- remove duplicates, keeping the last occurrence. -/
def dedup : List Path → List Path
  | [] => []
  | a :: t => if a ∈ t then dedup t else a :: dedup t

/-- `all_paths` of classifier.rs:55-58 (a `HashSet`: order unspecified; every consumer of the
    model's order is order-insensitive or sorts). -/
def allPathsOf {α β γ} (src : List (Path × α)) (dst : List (Path × β)) (prior : List (Path × γ)) : List Path :=
  dedup (src.map (·.1) ++ dst.map (·.1) ++ prior.map (·.1))

def classifyOne (cfg : Cfg) (src dst : List (Path × Entry))
    (prior : List (Path × (Option Row × Option Row))) (p : Path) : Option Change :=
  let s := lookup p src
  let d := lookup p dst
  let pr := lookup p prior
  (classifySingle cfg s d (pr.bind (·.1)) (pr.bind (·.2))).map fun ct => ⟨p, ct, s, d⟩

/-- `classify_changes` (classifier.rs:38-79). -/
def classifyChanges (cfg : Cfg) (src dst : List (Path × Entry))
    (prior : List (Path × (Option Row × Option Row))) : List Change :=
  (allPathsOf src dst prior).filterMap (classifyOne cfg src dst prior)

end SyModel.Bisync
