/-
  SyModel.Bisync.Resolver — model of `/repo/src/bisync/resolver.rs`.

  Six strategies (resolver.rs:10-17), `resolve_changes` (56-114), `resolve_conflict` (117-159),
  `resolve_by_mtime` (162-189: strict `>` both ways, tie → rename), `resolve_by_size`
  (192-223: tie → rename), the modify/delete fallbacks, `conflict_filename` (235-251).
  `generate_conflict_timestamp` (226-232: wall-clock seconds) is the parameter `stamp`.
-/
import SyModel.Bisync.Classifier
namespace SyModel.Bisync

inductive Strategy | newer | larger | smaller | source | dest | rename
  deriving DecidableEq, Repr, Inhabited

/-- `SyncAction` (resolver.rs:35-45); the relative path is kept next to the entry. -/
inductive Action
  | copyToSource (p : Path) (e : Entry)
  | copyToDest (p : Path) (e : Entry)
  | deleteFromSource (p : Path)
  | deleteFromDest (p : Path)
  | renameConflict (p : Path) (s d : Entry) (stamp : Nat)
  deriving DecidableEq, Repr

def Action.path : Action → Path
  | .copyToSource p _ | .copyToDest p _ | .deleteFromSource p | .deleteFromDest p
  | .renameConflict p _ _ _ => p

def Action.isRename : Action → Bool
  | .renameConflict .. => true
  | _ => false

/-- resolver.rs:162-189. -/
def resolveByMtime (p : Path) (s d : Option Entry) (stamp : Nat) : Action :=
  match s, d with
  | some s, some d =>
    if s.mtime > d.mtime then .copyToDest p s
    else if d.mtime > s.mtime then .copyToSource p d
    else .renameConflict p s d stamp
  | some s, none => .copyToDest p s
  | none, some d => .copyToSource p d
  | none, none => .deleteFromSource p

/-- resolver.rs:192-223. -/
def resolveBySize (p : Path) (s d : Option Entry) (preferSmaller : Bool) (stamp : Nat) : Action :=
  match s, d with
  | some s, some d =>
    let sourceWins := if preferSmaller then decide (s.size < d.size) else decide (s.size > d.size)
    if sourceWins then .copyToDest p s
    else if s.size ≠ d.size then .copyToSource p d
    else .renameConflict p s d stamp
  | some s, none => .copyToDest p s
  | none, some d => .copyToSource p d
  | none, none => .deleteFromSource p

/-- resolver.rs:117-159. The two `unwrap()`s of the rename fallback (152, 154) are total on
    every `Change` the classifier emits (a change has at least one entry); the impossible
    `(none, none)` case is mapped to `deleteFromSource` like the other strategies do. -/
def resolveConflict (strat : Strategy) (p : Path) (s d : Option Entry) (stamp : Nat) : Action :=
  match strat with
  | .newer => resolveByMtime p s d stamp
  | .larger => resolveBySize p s d false stamp
  | .smaller => resolveBySize p s d true stamp
  | .source => match s with
    | some s => .copyToDest p s
    | none => .deleteFromDest p
  | .dest => match d with
    | some d => .copyToSource p d
    | none => .deleteFromSource p
  | .rename => match s, d with
    | some s, some d => .renameConflict p s d stamp
    | some s, none => .copyToDest p s
    | none, some d => .copyToSource p d
    | none, none => .deleteFromSource p

/-- one iteration of the loop of `resolve_changes` (resolver.rs:64-107); `none` = the
    `if let Some(..)` did not fire. -/
def resolveOne (strat : Strategy) (stamp : Nat) (c : Change) : Option Action :=
  match c.ctype with
  | .newInSource | .modifiedInSource => c.s.map (.copyToDest c.path)
  | .newInDest | .modifiedInDest => c.d.map (.copyToSource c.path)
  | .deletedFromSource => some (.deleteFromDest c.path)
  | .deletedFromDest => some (.deleteFromSource c.path)
  | .modifiedBoth | .createCreate | .modifyDelete => some (resolveConflict strat c.path c.s c.d stamp)

/-- `resolve_changes` (resolver.rs:56-114): the action list. -/
def resolveChanges (strat : Strategy) (stamp : Nat) (cs : List Change) : List Action :=
  cs.filterMap (resolveOne strat stamp)

/-- (conflicts_resolved, conflicts_renamed) of `ResolvedChanges`. -/
def conflictCounts (strat : Strategy) (stamp : Nat) (cs : List Change) : Nat × Nat :=
  let rs := (cs.filter (·.ctype.isConflict)).map fun c => (resolveConflict strat c.path c.s c.d stamp).isRename
  ((rs.filter (!·)).length, (rs.filter id).length)

/-! ### `conflict_filename` -/

/-- split around the last occurrence of `sep`: `(before, after)`. -/
def splitLast (sep : Char) (l : List Char) : Option (List Char × List Char) :=
  let r := l.reverse
  let after := (r.takeWhile (· ≠ sep)).reverse
  match r.dropWhile (· ≠ sep) with
  | [] => none
  | _ :: before => some (before.reverse, after)

/-- `(file_stem, extension)` of a file name, as `Path::file_stem` / `Path::extension` compute
    them: split at the last `.`; a name with no `.`, or whose only `.` is the first character,
    or `..`, has no extension. -/
def stemExt (name : List Char) : List Char × Option (List Char) :=
  if name = ['.', '.'] then (name, none)
  else match splitLast '.' name with
    | none => (name, none)
    | some (before, after) => if before = [] then (name, none) else (before, some after)

def Side.str : Side → List Char
  | .source => "source".toList
  | .dest => "dest".toList

/-- everything of the conflict name before the side word. -/
def conflictPrefix (orig : Path) (stamp : Nat) : List Char :=
  let (dir, name) := match splitLast '/' orig with
    | none => ([], orig)
    | some (par, nm) => (par ++ ['/'], nm)
  dir ++ (stemExt name).1 ++ ".conflict-".toList ++ (Nat.toDigits 10 stamp) ++ ['-']

/-- everything after the side word. -/
def conflictSuffix (orig : Path) : List Char :=
  let name := match splitLast '/' orig with
    | none => orig
    | some (_, nm) => nm
  match (stemExt name).2 with
  | some e => '.' :: e
  | none => []

/-- `conflict_filename` (resolver.rs:235-251) on relative paths whose last component is a
    non-empty UTF-8 name: `stem.conflict-<stamp>-<side>[.ext]` next to the original. -/
def conflictName (orig : Path) (stamp : Nat) (side : Side) : Path :=
  conflictPrefix orig stamp ++ (side.str ++ conflictSuffix orig)

end SyModel.Bisync
